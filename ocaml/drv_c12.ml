(* C12 driver: the regenerated attribute-flow table (Gen/AttrFlow.v) seen through the extracted
   interpreter and decision procedures of Model/Lifecycle.v. *)
open Common

(* Coq strings <-> OCaml strings (ExtrOcamlBasic keeps string/ascii as the extracted inductives) *)
let char_of_ascii (a : Ascii.ascii) : char =
  match a with
  | Ascii.Ascii (b0, b1, b2, b3, b4, b5, b6, b7) ->
    let v b k = if b then k else 0 in
    Char.chr (v b0 1 + v b1 2 + v b2 4 + v b3 8 + v b4 16 + v b5 32 + v b6 64 + v b7 128)
let ascii_of_char (c : char) : Ascii.ascii =
  let n = Char.code c in
  let b k = (n lsr k) land 1 = 1 in
  Ascii.Ascii (b 0, b 1, b 2, b 3, b 4, b 5, b 6, b 7)
let rec ostr (s : String.string) : string =
  match s with
  | String.EmptyString -> ""
  | String.String (c, r) -> Stdlib.String.make 1 (char_of_ascii c) ^ ostr r
let cstr (s : string) : String.string =
  let r = ref String.EmptyString in
  for i = Stdlib.String.length s - 1 downto 0 do r := String.String (ascii_of_char (Stdlib.String.get s i), !r) done;
  !r

let out_str s = out_s (ostr s)
let next_str t = cstr (next t)

let rec out_event (e : Lifecycle.event) =
  match e with
  | Lifecycle.Read a -> out_s "R"; out_str a
  | Lifecycle.Save a -> out_s "S"; out_str a
  | Lifecycle.Write a -> out_s "W"; out_str a
  | Lifecycle.Restore a -> out_s "T"; out_str a
  | Lifecycle.Mut a -> out_s "M"; out_str a
  | Lifecycle.ReadParams -> out_s "P"
  | Lifecycle.CheckFitted -> out_s "F"
  | Lifecycle.Call (m, _, _) -> out_s "C"; out_str m
  | Lifecycle.CallAt (o, m, _, _) -> out_s "A"; out_str o; out_str m
  | Lifecycle.IfFlag (p, v, b) -> out_s "I"; out_str p; out_bool v; out_events b
  | Lifecycle.Branch (a, b) -> out_s "B"; out_events a; out_events b
  | Lifecycle.Loop b -> out_s "L"; out_events b
  | Lifecycle.Finally (b, f) -> out_s "Y"; out_events b; out_events f
  | Lifecycle.Stuck w -> out_s "X"; out_str w
and out_events (es : Lifecycle.events) =
  let rec len = function Lifecycle.ENil -> 0 | Lifecycle.ECons (_, r) -> 1 + len r in
  let rec go = function Lifecycle.ENil -> () | Lifecycle.ECons (e, r) -> out_event e; go r in
  out_int (len es); go es

let with_class t (f : Lifecycle.klass -> unit) =
  let c = next_str t in
  match Lifecycle.find_class AttrFlow.table c with
  | Some k -> f k
  | None -> out_s ("ERR unknown-class " ^ ostr c)

let () =
  (* classes -> list of (name, concrete) *)
  register "c12.classes" (fun _ ->
    out_list (fun k -> out_str k.Lifecycle.k_name; out_bool k.Lifecycle.k_concrete) AttrFlow.table);
  (* params <cls> -> constructor args, hyper-parameter attributes, stores (attr, opt source) *)
  register "c12.params" (fun t -> with_class t (fun k ->
    out_list out_str k.Lifecycle.k_args;
    out_list out_str (Lifecycle.hps k);
    out_list (fun (a, s) -> out_str a; out_opt out_str s) k.Lifecycle.k_stores));
  (* flow <cls> <method> -> has_method, flattened event tree *)
  register "c12.flow" (fun t -> with_class t (fun k ->
    let m = next_str t in
    out_bool (Lifecycle.has_method k m); out_events (Lifecycle.flow k m)));
  (* facts <cls> -> the nine decision procedures, dom, fit_must, path_must *)
  register "c12.facts" (fun t -> with_class t (fun k ->
    Stdlib.List.iter (fun f -> out_bool (f k))
      [Lifecycle.no_stale_read; Lifecycle.fit_overwrites_all; Lifecycle.no_hyperparam_write;
       Lifecycle.predict_methods_write_nothing; Lifecycle.path_restores_params; Lifecycle.path_no_stale_read;
       Lifecycle.resolved; Lifecycle.classified; Lifecycle.stores_ok];
    out_list out_str (Lifecycle.dom k); out_list out_str (Lifecycle.fit_must k); out_list out_str (Lifecycle.path_must k)));
  (* track <cls> <n> {C <method> <raised> | P | K} -> per step: unsafe, must, may *)
  register "c12.track" (fun t -> with_class t (fun k ->
    let hs = next_list (fun t ->
      match next t with
      | "C" -> let m = next_str t in let r = next_bool t in Lifecycle.HCall (m, r)
      | "P" -> Lifecycle.HSetParams
      | "K" -> Lifecycle.HClone
      | x -> failwith ("bad hop " ^ x)) t in
    let res = Lifecycle.track k { Lifecycle.t_must = []; t_may = [] } hs in
    out_list (fun (u, st) -> out_bool u; out_list out_str st.Lifecycle.t_must; out_list out_str st.Lifecycle.t_may) res))
