let () = Common.main ()
