(* C03 — one step of fit's inner loop for every gradient-trained model family:
   forward pass (Model/Forward.v, Model/Douglas.v), optional must-link/cannot-link decoration of the
   upstream gradient (Model/Mlcl.v through Backprop.decorated_gradient), backward pass (Model/Backprop.v).
   Common prefix of every command:  <dec: 0 | 1 factor idx-list ml-pairs cl-pairs> <X: n d> <G: n K>
   Reply: Y (n*K), decorated G (n*K), then the directions in the order of _get_weights (row major).
     c03.lin  <lin|rim|krim> prefix <W: d K> <b: K> [reg] [Kt: nt nt]
     c03.mlp  <mlp|smlp>     prefix <W1: d h> <W2: h K> <b1: h> <b2: K> [Wskip: d K]
     c03.cat                 prefix(X unused) <logits: n K>
     c03.dg                  prefix temp <S: L K> <features: list> <cuts: list of float lists>        *)
open Common
open Datatypes

let tab2 r c (f : nat -> nat -> float) =
  let a = Array.init r (fun i -> Array.init c (fun j -> f (nat_of_int i) (nat_of_int j))) in
  (fun i j -> a.(int_of_nat i).(int_of_nat j))
let next_pairs t = next_list (fun t -> let a = next_nat t in let b = next_nat t in (a, b)) t
let read_dec t =
  if next_bool t then begin
    let f = next_float t in let idx = next_list next_nat t in
    let ml = next_pairs t in let cl = next_pairs t in Some (f, idx, ml, cl)
  end else None
let decorate dec n k y g = match dec with
  | None -> g
  | Some (f, idx, ml, cl) ->
    tab2 n k (Backprop.decorated_gradient fops f idx (nat_of_int n) (nat_of_int k) y ml cl g)
let out_vec k (v : nat -> float) = for j = 0 to k - 1 do out_float (v (nat_of_int j)) done

let () =
  register "c03.lin" (fun t ->
    let kind = next t in
    let dec = read_dec t in
    let (n, d, x) = next_mat t in let (_, k, g) = next_mat t in
    let (_, _, w) = next_mat t in let (_, bv) = next_vec t in
    let p = { Backprop.lW = w; Backprop.lb = bv } in
    let nn = nat_of_int n and dd = nat_of_int d and kk = nat_of_int k in
    let y = tab2 n k (Backprop.linear_infer_p fops dd kk p x) in
    let gd = decorate dec n k y g in
    let gr = match kind with
      | "lin" -> Backprop.linear_compute_grads fops nn kk x y gd
      | "rim" -> let reg = next_float t in
        Backprop.rim_update_grads fops reg p (Backprop.linear_compute_grads fops nn kk x y gd)
      | "krim" -> let reg = next_float t in let (_, _, kt) = next_mat t in
        Backprop.kernel_rim_compute_grads fops nn dd kk reg kt p x y gd
      | _ -> failwith "unknown linear kind" in
    out_mat n k y; out_mat n k gd; out_mat d k gr.Backprop.lW; out_vec k gr.Backprop.lb);

  register "c03.mlp" (fun t ->
    let kind = next t in
    let dec = read_dec t in
    let (n, d, x) = next_mat t in let (_, k, g) = next_mat t in
    let (_, h, w1) = next_mat t in let (_, _, w2) = next_mat t in
    let (_, b1) = next_vec t in let (_, b2) = next_vec t in
    let nn = nat_of_int n and dd = nat_of_int d and hh = nat_of_int h and kk = nat_of_int k in
    let hid = tab2 n h (Forward.mlp_hidden fops dd hh w1 b1 x) in
    match kind with
    | "mlp" ->
      let p = { Backprop.mW1 = w1; Backprop.mW2 = w2; Backprop.mb1 = b1; Backprop.mb2 = b2 } in
      let y = tab2 n k (Backprop.mlp_infer_p fops dd hh kk p x) in
      let gd = decorate dec n k y g in
      let gr = Backprop.mlp_compute_grads fops nn kk w2 hid x y gd in
      out_mat n k y; out_mat n k gd; out_mat d h gr.Backprop.mW1; out_mat h k gr.Backprop.mW2;
      out_vec h gr.Backprop.mb1; out_vec k gr.Backprop.mb2
    | "smlp" ->
      let (_, _, ws) = next_mat t in
      let p = { Backprop.sW1 = w1; Backprop.sW2 = w2; Backprop.sWskip = ws; Backprop.sb1 = b1; Backprop.sb2 = b2 } in
      let y = tab2 n k (Backprop.sparse_mlp_infer_p fops dd hh kk p x) in
      let gd = decorate dec n k y g in
      let gr = Backprop.sparse_mlp_compute_grads fops nn kk w2 hid x y gd in
      out_mat n k y; out_mat n k gd; out_mat d h gr.Backprop.sW1; out_mat h k gr.Backprop.sW2;
      out_mat d k gr.Backprop.sWskip; out_vec h gr.Backprop.sb1; out_vec k gr.Backprop.sb2
    | _ -> failwith "unknown mlp kind");

  register "c03.cat" (fun t ->
    let dec = read_dec t in
    let (_, _, _) = next_mat t in let (n, k, g) = next_mat t in
    let (_, _, logits) = next_mat t in
    let kk = nat_of_int k in
    let y = tab2 n k (Forward.categorical_infer fops kk logits) in
    let gd = decorate dec n k y g in
    out_mat n k y; out_mat n k gd; out_mat n k (Backprop.categorical_compute_grads fops kk y gd));

  register "c03.dg" (fun t ->
    let dec = read_dec t in
    let (n, d, x) = next_mat t in let (_, k, g) = next_mat t in
    let temp = next_float t in
    let (l, _, s) = next_mat t in
    let feats = next_list next_nat t in
    let cuts = next_list (fun t -> next_list next_float t) t in
    let cpl = Stdlib.List.combine feats cuts in
    let f = Stdlib.List.length feats in
    let c = match cuts with [] -> 0 | c0 :: _ -> Stdlib.List.length c0 in
    let nn = nat_of_int n and kk = nat_of_int k in
    (* forward pass of Model/Douglas.v, retained as _infer retains it *)
    let binsa = Array.of_list (Stdlib.List.map (fun (feat, cu) ->
      Array.init n (fun i -> Array.of_list (Douglas.bins fops temp (x (nat_of_int i) feat) cu))) cpl) in
    let leafa = Array.init n (fun i -> match Douglas.leaf fops temp cpl (x (nat_of_int i)) with
      | Some lf -> Array.of_list lf | None -> failwith "no used feature") in
    let ya = Array.init n (fun i -> match Douglas.infer_row fops temp cpl kk s (x (nat_of_int i)) with
      | Some r -> Array.init k (fun j -> r (nat_of_int j)) | None -> failwith "no used feature") in
    let orders = Array.of_list (Stdlib.List.map (fun cu -> Douglas.argsort fops cu) cuts) in
    let bins fi i m = binsa.(int_of_nat fi).(int_of_nat i).(int_of_nat m) in
    let leafm i j = leafa.(int_of_nat i).(int_of_nat j) in
    let y i j = ya.(int_of_nat i).(int_of_nat j) in
    let gd = decorate dec n k y g in
    let (gs, gc) = Backprop.douglas_compute_grads fops nn (nat_of_int f) (nat_of_int c) kk temp s leafm bins
        (fun fi -> orders.(int_of_nat fi)) y gd in
    out_mat n k y; out_mat n k gd; out_mat l k gs;
    for fi = 0 to f - 1 do out_vec c (gc (nat_of_int fi)) done)
