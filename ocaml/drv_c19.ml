(* C19 — driver for Model/KauriPrint.v.  T = float (IEEE <=), N = int (a code per distinct user name).
   tree on the wire:  <n_nodes> <list int children_left> <list int children_right>
                      <list (N | S nat) features> <list (N | S hexfloat) thresholds> <list nat target> <list nat depths>
   names on the wire: A (None) | B (not array-like) | L <list int>
   tokens out:        N d id | C d c | R d (I f | M code) thr (LE|GT) *)
open Common
open Datatypes
open BinNums

let rec pos_of_int n = if n <= 1 then Coq_xH else if n land 1 = 0 then Coq_xO (pos_of_int (n lsr 1)) else Coq_xI (pos_of_int (n lsr 1))
let z_of_int n = if n = 0 then Z0 else if n > 0 then Zpos (pos_of_int n) else Zneg (pos_of_int (- n))
let rec int_of_pos = function Coq_xH -> 1 | Coq_xO p -> 2 * int_of_pos p | Coq_xI p -> 2 * int_of_pos p + 1
let int_of_z = function Z0 -> 0 | Zpos p -> int_of_pos p | Zneg p -> - (int_of_pos p)

let fleb (a : float) (b : float) = a <= b
let ieq (a : int) (b : int) = a = b

let next_tree t : float KauriPrint.tree =
  let n = next_nat t in
  let cl = next_list (fun t -> z_of_int (next_int t)) t in
  let cr = next_list (fun t -> z_of_int (next_int t)) t in
  let ft = next_list (next_opt next_nat) t in
  let th = next_list (next_opt next_float) t in
  let tg = next_list next_nat t in
  let dp = next_list next_nat t in
  { KauriPrint.children_left = cl; children_right = cr; features = ft; thresholds = th; target = tg; depths = dp; n_nodes = n }

let out_tree (tr : float KauriPrint.tree) =
  out_nat tr.KauriPrint.n_nodes;
  out_list (fun z -> out_int (int_of_z z)) tr.KauriPrint.children_left;
  out_list (fun z -> out_int (int_of_z z)) tr.KauriPrint.children_right;
  out_list (out_opt out_nat) tr.KauriPrint.features;
  out_list (out_opt out_float) tr.KauriPrint.thresholds;
  out_list out_nat tr.KauriPrint.target;
  out_list out_nat tr.KauriPrint.depths

let next_names t : int KauriPrint.names_arg =
  match next t with
  | "A" -> KauriPrint.NAbsent
  | "B" -> KauriPrint.NBad
  | "L" -> KauriPrint.NList (next_list next_int t)
  | s -> failwith ("bad names tag " ^ s)

let out_label = function
  | KauriPrint.LIdx f -> out_s "I"; out_nat f
  | KauriPrint.LName c -> out_s "M"; out_int c

let out_token = function
  | KauriPrint.TNode (d, id) -> out_s "N"; out_nat d; out_nat id
  | KauriPrint.TCluster (d, c) -> out_s "C"; out_nat d; out_nat c
  | KauriPrint.TRule (d, lab, th, c) ->
    out_s "R"; out_nat d; out_label lab; out_float th; out_s (match c with KauriPrint.LE -> "LE" | KauriPrint.GT -> "GT")

let point_fun (a : float array) : nat -> float =
  fun f -> let i = int_of_nat f in if i < Array.length a then a.(i) else failwith "feature index outside the point"

let () =
  (* print <obj: F | U | T tree> <names> -> P <tokens> | EP | ENF | EN | EI *)
  register "c19.print" (fun t ->
    let o = (match next t with
      | "F" -> KauriPrint.Foreign | "U" -> KauriPrint.Unfitted
      | "T" -> KauriPrint.Fitted (next_tree t)
      | s -> failwith ("bad object tag " ^ s)) in
    let na = next_names t in
    match KauriPrint.print_kauri_tree o na with
    | KauriPrint.Printed toks -> out_s "P"; out_list out_token toks
    | KauriPrint.ErrParam -> out_s "EP"
    | KauriPrint.ErrNotFitted -> out_s "ENF"
    | KauriPrint.ErrNames -> out_s "EN"
    | KauriPrint.ErrIndex -> out_s "EI");
  (* guard <tree> <list int names> -> rejects? used_features *)
  register "c19.guard" (fun t ->
    let tr = next_tree t in let ns = next_list next_int t in
    out_bool (KauriPrint.names_guard_rejects tr ns);
    out_list out_nat (KauriPrint.used_features tr));
  (* eval <tree> <names: A | L list> <npoints> <d> <floats> ->
       roundtrip-ok?  then per point: read_back (opt nat)  predict (opt nat) *)
  register "c19.eval" (fun t ->
    let tr = next_tree t in
    let names = (match next_names t with
      | KauriPrint.NAbsent -> None | KauriPrint.NList l -> Some l | KauriPrint.NBad -> failwith "eval needs A or L") in
    let np = next_int t in let d = next_int t in
    let rt = (match KauriPrint.render tr names, KauriPrint.abs_tree tr names with
      | Some toks, Some r -> (match KauriPrint.parse toks with Some r' -> r' = r | None -> false)
      | _, _ -> false) in
    out_bool rt;
    for _ = 1 to np do
      let a = Array.init d (fun _ -> next_float t) in
      let x = point_fun a in
      let v = (match names with
        | None -> KauriPrint.val_default x nan
        | Some ns -> KauriPrint.val_names ieq ns x nan) in
      out_opt out_nat (KauriPrint.read_back fleb tr names v);
      out_opt out_nat (KauriPrint.predict fleb tr x)
    done);
  (* build <list (father feature thr left right)> -> S tree | N *)
  register "c19.build" (fun t ->
    let ops = next_list (fun t ->
      let father = next_nat t in let f = next_nat t in let th = next_float t in
      let l = next_nat t in let r = next_nat t in
      (father, { KauriPrint.s_feature = f; s_threshold = th; s_left = l; s_right = r })) t in
    out_opt out_tree (KauriPrint.build ops))
