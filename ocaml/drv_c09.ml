(* C09 — driver for the extracted KAURI tree model (coq/Model/KauriTree.v). *)
open Common
open Datatypes

let rec pos_of_int n = if n <= 1 then BinNums.Coq_xH
  else if n land 1 = 0 then BinNums.Coq_xO (pos_of_int (n lsr 1)) else BinNums.Coq_xI (pos_of_int (n lsr 1))
let z_of_int n = if n = 0 then BinNums.Z0 else if n > 0 then BinNums.Zpos (pos_of_int n) else BinNums.Zneg (pos_of_int (-n))
let rec int_of_pos = function BinNums.Coq_xH -> 1 | BinNums.Coq_xO p -> 2 * int_of_pos p | BinNums.Coq_xI p -> 2 * int_of_pos p + 1
let int_of_z = function BinNums.Z0 -> 0 | BinNums.Zpos p -> int_of_pos p | BinNums.Zneg p -> - (int_of_pos p)
let next_z t = z_of_int (next_int t)

let next_params t =
  let k = next_nat t in let md = next_opt next_nat t in let mss = next_nat t in let msl = next_nat t in
  let ml = next_opt next_nat t in
  { KauriTree.max_clusters = k; max_depth = md; min_samples_split = mss; min_samples_leaf = msl; max_leaves = ml }
let next_data t = next_list (fun t -> next_list next_z t) t
let next_split t =
  let leaf = next_nat t in let f = next_nat t in let th = next_z t in let l = next_nat t in let r = next_nat t in
  { KauriTree.s_leaf = leaf; s_feature = f; s_threshold = th; s_left = l; s_right = r }

let out_onat = function None -> out_int (-1) | Some a -> out_nat a
let out_tree (tr : KauriTree.tree) =
  out_int (Stdlib.List.length tr);
  Stdlib.List.iter (fun nd ->
    out_onat nd.KauriTree.nd_left; out_onat nd.KauriTree.nd_right; out_onat nd.KauriTree.nd_feature;
    (match nd.KauriTree.nd_threshold with None -> out_s "N" | Some z -> out_s "S"; out_int (int_of_z z));
    out_nat nd.KauriTree.nd_target; out_nat nd.KauriTree.nd_depth) tr

(* c09.fit        : the model instantiated with the REGENERATED rules (Gen/KauriFitRules.v)
   c09.fit_golden : the same skeleton with the hand-written golden rules the theorems were written against *)
let run_fit (rules : KauriFitRules.coq_FitRules) t =
  (* <params> <d> <X> <splits> <terminal 0/1> <fresh rows>
     runs the model loop with the recorded splits as the oracle.
     status: 0 ok | 1 the recorded sequence ended although the model loop continues
             | 2 a recorded split is not admissible in the model state | 3 out of fuel
             | 4 splits were recorded beyond the model's loop exit *)
    let p = next_params t in let d = next_nat t in let x = next_data t in
    let splits = Array.of_list (next_list next_split t) in
    let terminal = next_bool t in
    let fresh = next_data t in
    let status = ref 0 in
    let used = ref 0 in
    let bad = ref (-1) in
    let trace = ref [] in
    let choose (st : KauriTree.state) =
      let it = int_of_nat st.KauriTree.st_nl - 1 in
      trace := (st.KauriTree.st_nl, st.KauriTree.st_nc, st.KauriTree.st_queue) :: !trace;
      if it < Array.length splits then begin
        let sp = splits.(it) in
        if not (KauriTree.admissibleb_g rules p d x st sp) then (if !status = 0 then (status := 2; bad := it));
        used := it + 1;
        Some sp end
      else begin (if not terminal && !status = 0 then status := 1); None end in
    (match KauriTree.fit_g rules p x choose with
     | KauriTree.OutOfFuel -> out_int 3
     | KauriTree.Done st ->
       if !status = 0 && !used < Array.length splits then status := 4;
       out_int !status; out_int !bad;
       out_nat st.KauriTree.st_nl; out_nat st.KauriTree.st_nc;
       out_list out_nat st.KauriTree.st_queue;
       let tr = st.KauriTree.st_tree in
       out_tree tr;
       out_list out_nat (KauriTree.labels_g rules p x st);
       out_list out_nat (KauriTree.leaves_g rules p x st);
       out_list (out_opt out_nat) (KauriTree.predict_g rules tr x);
       out_list (out_opt out_nat) (KauriTree.predict_g rules tr fresh);
       out_list (out_opt out_nat) (Stdlib.List.map (KauriTree.route_leaf_g rules tr) fresh);
       out_list out_nat (Stdlib.List.mapi (fun a _ -> KauriTree.node_count_g rules tr x (nat_of_int a)) tr);
       out_nat (KauriTree.count_leaves tr); out_nat (KauriTree.tree_depth tr);
       (* loop state at every oracle call: n_leaves, n_clusters, leaves_to_explore *)
       out_list (fun (a, b, q) -> out_nat a; out_nat b; out_list out_nat q) (Stdlib.List.rev !trace))

let () =
  register "c09.fit" (run_fit KauriFitRules.kauri_fit_rules);
  register "c09.fit_golden" (run_fit KauriTree.golden_fit_rules);
  (* c09.objective <K> <labels> <kernel matrix> : gemini_objective in the float instance *)
  register "c09.objective" (fun t ->
    let k = next_nat t in let lab = Array.of_list (next_list next_int t) in
    let (r, _, ker) = next_mat t in
    out_float (KauriTree.objective fops (nat_of_int r) k ker (fun i -> nat_of_int lab.(int_of_nat i))));
  ()
