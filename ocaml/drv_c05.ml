open Common
(* matrices travel as "<rows> <cols> <row-major hex floats>" and become lists of rows *)
let next_rows t =
  let r = next_int t in let c = next_int t in
  Stdlib.List.init r (fun _ -> Stdlib.List.init c (fun _ -> next_float t))
let out_rows m = out_list (out_list out_float) m
let out_orows m = out_list (out_opt (out_list out_float)) m
let () =
  (* linear <W> <alpha> -> rows of linear_prox_grad(W, alpha) *)
  register "c05.linear" (fun t ->
    let w = next_rows t in let alpha = next_float t in
    out_rows (Prox.linear_prox fops w alpha));
  (* mlp <W_skip> <W1> <alpha> <M> -> rows of beta_star, rows of theta_star *)
  register "c05.mlp" (fun t ->
    let v = next_rows t in let u = next_rows t in let alpha = next_float t in let m = next_float t in
    let (b, th) = Prox.mlp_prox fops v u alpha m in out_rows b; out_rows th);
  (* glinear <groups> <W> <alpha> -> N (IndexError) | S rows (N = row never written) *)
  register "c05.glinear" (fun t ->
    let groups = next_list (next_list next_nat) t in let w = next_rows t in let alpha = next_float t in
    out_opt out_orows (Prox.group_linear_prox fops groups w alpha));
  register "c05.gmlp" (fun t ->
    let groups = next_list (next_list next_nat) t in let v = next_rows t in let u = next_rows t in
    let alpha = next_float t in let m = next_float t in
    out_opt (fun (b, th) -> out_orows b; out_orows th) (Prox.group_mlp_prox fops groups v u alpha m));
  (* single rows (used by the oracle's diagnostics) *)
  register "c05.soft" (fun t ->
    let thr = next_float t in let x = next_float t in out_float (Prox.soft_threshold fops thr x))
