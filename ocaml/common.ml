(* Shared helpers for the correspondence driver: token reader, printers, float NumOps instance,
   command table.  One request per input line: "<cmd> tok tok ..."; one answer line per request. *)
open Datatypes

let rec nat_of_int n = if n <= 0 then O else S (nat_of_int (n - 1))
let rec int_of_nat = function O -> 0 | S m -> 1 + int_of_nat m

let fops : float Num.coq_NumOps = {
  Num.n0 = 0.0; n1 = 1.0; nadd = ( +. ); nsub = ( -. ); nmul = ( *. ); ndiv = ( /. );
  nsqrt = sqrt; nln = log; nexp = exp; nabs = abs_float;
  nltb = (fun a b -> a < b); nleb = (fun a b -> a <= b); neqb = (fun a b -> a = b);
  nofnat = (fun n -> float_of_int (int_of_nat n)) }

(* token stream *)
type toks = { mutable rest : string list }
let toks_of_line s = { rest = Stdlib.List.filter (fun t -> t <> "") (Stdlib.String.split_on_char ' ' s) }
let next t = match t.rest with [] -> failwith "missing token" | x :: r -> t.rest <- r; x
let next_int t = int_of_string (next t)
let next_nat t = nat_of_int (next_int t)
let next_float t = float_of_string (next t)
let next_bool t = (next t) = "1"
let next_list f t = let n = next_int t in Stdlib.List.init n (fun _ -> f t)
let next_opt f t = if next t = "N" then None else Some (f t)
(* dense row-major matrix -> function on Peano indices *)
let next_mat t = let r = next_int t in let c = next_int t in
  let a = Array.init r (fun _ -> Array.init c (fun _ -> next_float t)) in
  (r, c, (fun i j -> a.(int_of_nat i).(int_of_nat j)))
let next_vec t = let r = next_int t in let a = Array.init r (fun _ -> next_float t) in
  (r, (fun i -> a.(int_of_nat i)))

let buf = Buffer.create 4096
let out_s s = Buffer.add_string buf s; Buffer.add_char buf ' '
let out_int n = out_s (string_of_int n)
let out_nat n = out_int (int_of_nat n)
let out_float x = out_s (Printf.sprintf "%h" x)
let out_bool b = out_s (if b then "1" else "0")
let out_list f l = out_int (Stdlib.List.length l); Stdlib.List.iter f l
let out_opt f = function None -> out_s "N" | Some x -> out_s "S"; f x
let out_mat r c (f : nat -> nat -> float) =
  for i = 0 to r - 1 do for j = 0 to c - 1 do out_float (f (nat_of_int i) (nat_of_int j)) done done

let table : (string, toks -> unit) Hashtbl.t = Hashtbl.create 64
let register name f = Hashtbl.replace table name f

let main () =
  try while true do
    let line = input_line stdin in
    let t = toks_of_line line in
    Buffer.clear buf;
    (try
      let cmd = next t in
      (match Hashtbl.find_opt table cmd with
       | Some f -> f t
       | None -> out_s ("ERR unknown-command " ^ cmd))
    with e -> Buffer.clear buf; out_s ("ERR " ^ Printexc.to_string e));
    print_endline (Buffer.contents buf)
  done with End_of_file -> ()
