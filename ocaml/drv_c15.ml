(* C15 — Douglas: commands over the extracted model Douglas.* at the float instance.
   cpl encoding: <m> then m times (<feature> <list of cut points>).                         *)
open Common
open Datatypes
let next_cpl t = next_list (fun t -> let f = next_nat t in let c = next_list next_float t in (f, c)) t
let () =
  (* c15.binning <temp> <x> <cuts> -> sorted cuts, order, bias, logits, memberships *)
  register "c15.binning" (fun t ->
    let temp = next_float t in let x = next_float t in let cuts = next_list next_float t in
    out_list out_float (Douglas.sort_cuts fops cuts);
    out_list out_nat (Douglas.argsort fops cuts);
    out_list out_float (Douglas.bias fops cuts);
    out_list out_float (Douglas.bin_logits fops x cuts);
    out_list out_float (Douglas.bins fops temp x cuts));
  (* c15.infer <temp> <K> <cpl> <leaf_scores: L K> <X: n d> -> per row: N | S <leaf list> <K probabilities> *)
  register "c15.infer" (fun t ->
    let temp = next_float t in let k = next_int t in let cpl = next_cpl t in
    let (_, _, s) = next_mat t in let (n, _, x) = next_mat t in
    let kk = nat_of_int k in
    for i = 0 to n - 1 do
      let row = x (nat_of_int i) in
      match Douglas.leaf fops temp cpl row, Douglas.infer fops temp cpl kk s x (nat_of_int i) with
      | Some lf, Some p -> out_s "S"; out_list out_float lf;
                           for c = 0 to k - 1 do out_float (p (nat_of_int c)) done
      | _, _ -> out_s "N"
    done);
  (* c15.init <d> <mask option: list of 0/1> <n_cuts> <draws: list of lists> -> N | S cpl num_leaf *)
  register "c15.init" (fun t ->
    let d = next_nat t in let mask = next_opt (next_list next_bool) t in let ncuts = next_nat t in
    let draws = Array.of_list (next_list (next_list next_float) t) in
    let draw j = let j = int_of_nat j in if j < Array.length draws then draws.(j) else [] in
    (match Douglas.used_features d mask with
     | None -> out_s "N"
     | Some u -> out_s "S"; out_list out_nat u);
    (match Douglas.init_cuts d mask draw with
     | None -> out_s "N"
     | Some cpl -> out_s "S";
       out_list (fun (f, c) -> out_nat f; out_list out_float c) cpl;
       out_nat (Douglas.num_leaf ncuts cpl)));
  (* c15.fap <cpl> <X: n d> -> V | I | O <list> *)
  register "c15.fap" (fun t ->
    let cpl = next_cpl t in let (n, d, x) = next_mat t in
    match Douglas.find_active_points fops (nat_of_int n) (nat_of_int d) x cpl with
    | Douglas.FapValueError -> out_s "V"
    | Douglas.FapIndexError -> out_s "I"
    | Douglas.FapOk l -> out_s "O"; out_list out_nat l)
