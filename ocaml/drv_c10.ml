open Common
let () =
  (* batches <bs> <perm list> -> list of lists *)
  register "c10.batches" (fun t ->
    let bs = next_nat t in let perm = next_list next_nat t in
    out_list (out_list out_nat) (Batch.batches bs perm));
  (* epoch <n> <bs option> <perm> *)
  register "c10.epoch" (fun t ->
    let n = next_nat t in let bs = next_opt next_nat t in let perm = next_list next_nat t in
    out_list (out_list out_nat) (Batch.epoch n bs perm));
  register "c10.decorated" (fun t ->
    let n = next_nat t in let bs = next_opt next_nat t in let perm = next_list next_nat t in
    out_list (fun (a, b) -> out_list out_nat a; out_list out_nat b) (Batch.decorated_epoch n bs perm));
  register "c10.val_blocks" (fun t ->
    let n = next_nat t in let bs = next_nat t in
    out_list (out_list out_nat) (Batch.val_blocks n bs));
  register "c10.cat" (fun t -> let n = next_nat t in out_list (out_list out_nat) (Batch.cat_epoch n))
