(* C10 driver.
   c10.batches / c10.epoch / c10.decorated / c10.val_blocks / c10.cat run the REFERENCE model (Model/Batch.v (1));
   c10.code_* run the CODE model (Model/Batch.v (2)) instantiated with the rules regenerated from the Python
   sources (Gen/BatchRules.v).  A code-model result is an option: "N" = out of fuel. *)
open Common
let rec pos_of_int n = if n <= 1 then BinNums.Coq_xH else if n land 1 = 0 then BinNums.Coq_xO (pos_of_int (n lsr 1)) else BinNums.Coq_xI (pos_of_int (n lsr 1))
let z_of_int n = if n = 0 then BinNums.Z0 else if n > 0 then BinNums.Zpos (pos_of_int n) else BinNums.Zneg (pos_of_int (- n))
let rec int_of_pos = function BinNums.Coq_xH -> 1 | BinNums.Coq_xO p -> 2 * int_of_pos p | BinNums.Coq_xI p -> 2 * int_of_pos p + 1
let int_of_z = function BinNums.Z0 -> 0 | BinNums.Zpos p -> int_of_pos p | BinNums.Zneg p -> - (int_of_pos p)

let br = BatchRules.batch_rules
let vr = BatchRules.val_rules fops
(* numpy's permutation oracle: the harness supplies permutation(len(perm)); any other length asked for by the
   regenerated rules is an error of the correspondence *)
let oracle perm = fun m ->
  if int_of_z m = Stdlib.List.length perm then perm
  else failwith (Printf.sprintf "permutation(%d) requested, permutation(%d) supplied" (int_of_z m) (Stdlib.List.length perm))
let out_idx = out_list out_nat
let out_yield (r, (ar, ac)) = out_idx r; out_idx ar; out_idx ac
let out_reads (ir, ((ar, ac), gr)) = out_idx ir; out_idx ar; out_idx ac; out_idx gr
(* block score oracle: the score of the block whose first data row is i is sc.(i) *)
let score_of sc = fun rows _ _ -> match rows with [] -> nan | i :: _ -> sc.(int_of_nat i)

let () =
  (* batches <bs> <perm list> -> list of lists *)
  register "c10.batches" (fun t ->
    let bs = next_nat t in let perm = next_list next_nat t in
    out_list (out_list out_nat) (Batch.batches bs perm));
  (* epoch <n> <bs option> <perm> *)
  register "c10.epoch" (fun t ->
    let n = next_nat t in let bs = next_opt next_nat t in let perm = next_list next_nat t in
    out_list (out_list out_nat) (Batch.epoch n bs perm));
  register "c10.decorated" (fun t ->
    let n = next_nat t in let bs = next_opt next_nat t in let perm = next_list next_nat t in
    out_list (fun (a, b) -> out_list out_nat a; out_list out_nat b) (Batch.decorated_epoch n bs perm));
  register "c10.val_blocks" (fun t ->
    let n = next_nat t in let bs = next_nat t in
    out_list (out_list out_nat) (Batch.val_blocks n bs));
  register "c10.cat" (fun t -> let n = next_nat t in out_list (out_list out_nat) (Batch.cat_epoch n));
  (* ---- code model with the regenerated rules ---- *)
  (* code_epoch <n> <bs option> <perm> -> option list of (rows, affinity rows, affinity columns) *)
  register "c10.code_epoch" (fun t ->
    let n = next_nat t in let bs = next_opt next_nat t in let perm = next_list next_nat t in
    out_opt (out_list out_yield) (Batch.code_batchify br n bs (oracle perm)));
  (* code_decorated <n> <bs option> <perm> -> option list of (recorded, rows, affinity rows, affinity columns) *)
  register "c10.code_decorated" (fun t ->
    let n = next_nat t in let bs = next_opt next_nat t in let perm = next_list next_nat t in
    out_opt (out_list (fun (rec_, (r, (ar, ac))) -> out_idx rec_; out_idx r; out_idx ar; out_idx ac))
      (Batch.code_decorated br BatchRules.deco_rules n bs (oracle perm)));
  (* code_decorated_visible <n> <bs option> <perm> -> option list of (indices visible to _compute_grads, rows of its batch) *)
  register "c10.code_decorated_visible" (fun t ->
    let n = next_nat t in let bs = next_opt next_nat t in let perm = next_list next_nat t in
    out_opt (out_list (fun (v, r) -> out_idx v; out_idx r))
      (Batch.code_decorated_visible br BatchRules.deco_rules BatchRules.fit_rules n bs (oracle perm)));
  (* code_fit <max_iter> <n> <bs option> <max_iter perms> -> n_iter_, option list of step reads *)
  register "c10.code_fit" (fun t ->
    let mi = next_int t in let n = next_nat t in let bs = next_opt next_nat t in
    let perms = Array.of_list (next_list (next_list next_nat) t) in
    let p e = let e = int_of_nat e in
      if e < Array.length perms then oracle perms.(e) else failwith "more epochs requested than permutations supplied" in
    out_int (int_of_z (Batch.code_n_iter BatchRules.fit_rules (z_of_int mi)));
    out_opt (out_list out_reads) (Batch.code_fit_trace br BatchRules.fit_rules (nat_of_int mi) n bs p));
  (* code_n_iter <max_iter> -> the value fit stores in n_iter_ *)
  register "c10.code_n_iter" (fun t ->
    let mi = next_int t in out_int (int_of_z (Batch.code_n_iter BatchRules.fit_rules (z_of_int mi))));
  (* code_path_epoch <n> <bs option> <perm> -> option list of step reads *)
  register "c10.code_path_epoch" (fun t ->
    let n = next_nat t in let bs = next_opt next_nat t in let perm = next_list next_nat t in
    out_opt (out_list out_reads) (Batch.code_path_epoch br BatchRules.path_step_rules n bs (oracle perm)));
  (* code_val <n> <bs> -> option list of (rows, y rows, y columns) *)
  register "c10.code_val" (fun t ->
    let n = next_nat t in let bs = next_int t in
    out_opt (out_list out_yield) (Batch.code_val_blocks vr n (z_of_int bs)));
  (* code_val_score <n> <bs> <n scores, by first row of the block> -> option float *)
  register "c10.code_val_score" (fun t ->
    let n = next_nat t in let bs = next_int t in let sc = Array.of_list (next_list next_float t) in
    out_opt out_float (Batch.code_val_score vr n (z_of_int bs) (score_of sc)));
  (* code_path_val_score <n> <bs option> <scores> : batch_size defaulted as _run_path does *)
  register "c10.code_path_val_score" (fun t ->
    let n = next_nat t in let bs = next_opt next_nat t in let sc = Array.of_list (next_list next_float t) in
    out_opt out_float (Batch.code_path_val_score vr n bs (score_of sc)))
