#!/bin/bash
# (Re)build everything the checks need from files on disk and /repo's current working tree:
#   1. regenerate coq/Gen/*.v with the fail-closed translators (from /repo sources)
#   2. full .vo build of the Coq development (make -k: an unprovable regenerated obligation must
#      not stop the executable model from building)
#   3. extraction (ExtrOcamlBasic only) and the OCaml correspondence driver
# Serialised with a lock so concurrent checks do not race.  Prints BUILD-FAIL lines for .v files
# whose .vo is missing afterwards; exit status 0 unless the model/driver itself cannot be built.
set -u
cd /verif
mkdir -p build
exec 9>/verif/build/.lock
flock 9
export PYTHONPATH=/repo PYTHONHASHSEED=0
for t in translator/tr_*.py; do
  [ -e "$t" ] || continue
  timeout 120 /venv/bin/python "$t" >> build/translators.log 2>&1 || echo "TRANSLATOR-FAIL $t"
done
python3 tools/gen_extraction.py
cd /verif/coq
{ echo "-Q . GV"; echo "-arg -w -arg -all"; ls Common/*.v Model/*.v Gen/*.v Proofs/*.v Props/*.v Extraction.v 2>/dev/null; } > _CoqProject.new
if ! cmp -s _CoqProject.new _CoqProject || [ ! -e Makefile ]; then mv _CoqProject.new _CoqProject; coq_makefile -f _CoqProject -o Makefile > /dev/null; else rm -f _CoqProject.new; fi
timeout 3000 make -k -j16 > /verif/build/make.log 2>&1
for f in Common/*.v Model/*.v Gen/*.v Proofs/*.v Props/*.v Extraction.v; do
  [ -e "$f" ] || continue
  [ -e "${f}o" ] || echo "BUILD-FAIL $f"
done
mkdir -p /verif/ocaml/gen
if ls /verif/coq/*.ml > /dev/null 2>&1; then rm -f /verif/ocaml/gen/*; mv /verif/coq/*.ml /verif/coq/*.mli /verif/ocaml/gen/; fi
cd /verif/ocaml
sig=$(cat gen/*.ml gen/*.mli common.ml drv_*.ml main.ml 2>/dev/null | md5sum | cut -d' ' -f1)
if [ ! -x main ] || [ "$(cat .sig 2>/dev/null)" != "$sig" ]; then
  rm -f main
  srcs=$(cd gen && ocamlfind ocamldep -sort *.mli *.ml | tr ' ' '\n' | grep . | sed 's#^#gen/#' | tr '\n' ' ')
  if timeout 600 ocamlfind ocamlopt -O2 -w -a -I gen $srcs common.ml drv_*.ml main.ml -o main > /verif/build/ocaml.log 2>&1 \
     || timeout 600 ocamlfind ocamlopt -w -a -I gen $srcs common.ml drv_*.ml main.ml -o main > /verif/build/ocaml.log 2>&1; then
    echo "$sig" > .sig
  else
    echo "DRIVER-FAIL (see build/ocaml.log)"; exit 2
  fi
fi
exit 0
