#!/bin/bash
# (Re)build everything the checks need from files on disk and /repo's current working tree:
#   1. regenerate coq/Gen/*.v with the fail-closed translators (from /repo sources)
#   2. full .vo build of the Coq development (make -k: an unprovable regenerated obligation must
#      not stop the executable model from building)
#   3. extraction (ExtrOcamlBasic only) of the model files that compiled, and the OCaml driver
# Serialised with a lock so concurrent checks do not race.  Prints BUILD-FAIL lines for .v files
# whose .vo is missing afterwards; exit status 0 unless the driver itself cannot be built.
set -u
ROOT=$(cd "$(dirname "$0")/.." && pwd)
REPO=${VERIF_REPO:-/repo}
cd "$ROOT"
mkdir -p build ocaml/gen
exec 9>$ROOT/build/.lock
flock 9
export PYTHONPATH=$REPO VERIF_REPO=$REPO PYTHONHASHSEED=0
: > build/translators.log
for t in translator/tr_*.py; do
  [ -e "$t" ] || continue
  timeout 120 /venv/bin/python "$t" >> build/translators.log 2>&1 || echo "TRANSLATOR-FAIL $t"
done
cd $ROOT/coq
{ echo "-Q . GV"; echo "-arg -w -arg -all"; ls Common/*.v Model/*.v Gen/*.v Proofs/*.v Props/*.v 2>/dev/null; } > _CoqProject.new
if ! cmp -s _CoqProject.new _CoqProject || [ ! -e Makefile ]; then mv _CoqProject.new _CoqProject; coq_makefile -f _CoqProject -o Makefile > /dev/null; else rm -f _CoqProject.new; fi
timeout 3000 make -k -j16 COQC="timeout 900 coqc" > $ROOT/build/make.log 2>&1
# a file whose recompilation failed keeps its previous .vo (coqc fails before writing): remove such stale
# objects so that nothing downstream is checked against an outdated proof
for vo in $(grep -oE '\*\*\* \[[^]]*: [^] ]+\.vo\] Error' $ROOT/build/make.log | sed -E 's/.*: ([^] ]+\.vo)\] Error/\1/' | sort -u); do
  rm -f "$vo" "${vo}s" "${vo%.vo}.vok"
done
for f in Common/*.v Model/*.v Gen/*.v Proofs/*.v Props/*.v; do
  [ -e "$f" ] || continue
  [ -e "${f}o" ] || echo "BUILD-FAIL $f"
done
# extraction
python3 $ROOT/tools/gen_extraction.py
newest=$(ls -t Common/*.vo Model/*.vo Gen/*.vo 2>/dev/null | head -1)
if [ ! -e Extraction.vo ] || [ Extraction.v -nt Extraction.vo ] || [ -n "$newest" -a "$newest" -nt Extraction.vo ] || [ -z "$(ls $ROOT/ocaml/gen/*.ml 2>/dev/null)" ]; then
  rm -f ./*.ml ./*.mli
  if timeout 600 coqc -w -all -Q . GV Extraction.v > $ROOT/build/extraction.log 2>&1; then
    rm -f $ROOT/ocaml/gen/*; mv ./*.ml ./*.mli $ROOT/ocaml/gen/
  else
    echo "BUILD-FAIL Extraction.v"
  fi
fi
cd $ROOT/ocaml
sig=$(cat gen/*.ml gen/*.mli common.ml drv_*.ml main.ml 2>/dev/null | md5sum | cut -d' ' -f1)
if [ ! -x main ] || [ "$(cat .sig 2>/dev/null)" != "$sig" ]; then
  rm -f main *.cmx *.cmi *.o gen/*.cmx gen/*.cmi gen/*.o
  srcs=$(cd gen && ocamlfind ocamldep -sort *.mli *.ml | tr ' ' '\n' | grep . | sed 's#^#gen/#' | tr '\n' ' ')
  : > $ROOT/build/ocaml.log
  ok=1
  timeout 600 ocamlfind ocamlopt -O2 -w -a -I gen -c $srcs common.ml >> $ROOT/build/ocaml.log 2>&1 || ok=0
  objs=""
  for d in drv_*.ml; do
    if timeout 300 ocamlfind ocamlopt -w -a -I gen -c "$d" >> $ROOT/build/ocaml.log 2>&1; then objs="$objs ${d%.ml}.cmx"; else echo "DRIVER-PART-FAIL $d"; fi
  done
  genobjs=$(echo $srcs | tr ' ' '\n' | grep '\.ml$' | sed 's/\.ml$/.cmx/' | tr '\n' ' ')
  if [ $ok = 1 ] && timeout 600 ocamlfind ocamlopt -w -a -I gen $genobjs common.cmx $objs main.ml -o main >> $ROOT/build/ocaml.log 2>&1; then
    echo "$sig" > .sig
  else
    echo "DRIVER-FAIL (see build/ocaml.log)"; exit 2
  fi
fi
exit 0
