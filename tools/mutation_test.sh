#!/bin/bash
# usage: tools/mutation_test.sh <patch.diff> <Cxx> [<Cyy> ...]
# Runs the quick checks against a scratch copy of /repo with the patch applied, from a scratch copy of the
# framework (so regenerated Gen/*.v do not disturb /verif). Prints each check's verdict; removes the copies.
# Timestamps are preserved (cp -a) so that only what the patch changes is rebuilt, and at most 4 scratch runs
# proceed at a time on this machine (slots under /tmp/verif_slots) - many concurrent full rebuilds exhaust memory.
set -u
patch=$(readlink -f "$1"); shift
tag=mt_$$
R=/tmp/${tag}_repo; V=/tmp/${tag}_verif
mkdir -p /tmp/verif_slots
exec 9>/dev/null
while :; do
  for s in 0 1 2 3; do
    exec 9>/tmp/verif_slots/slot$s
    if flock -n 9; then break 2; fi
  done
  sleep $((5 + RANDOM % 10))
done
cp -a /repo $R && cp -a ${VERIF_SRC:-/verif} $V || exit 2
rm -rf $V/build/.lock
( cd $R && git apply "$patch" ) || { echo "PATCH-DOES-NOT-APPLY"; rm -rf $R $V; exit 2; }
for id in "$@"; do
  out=$(cd $V && VERIF_REPO=$R timeout 1500 ./check $id ${VERIF_TIER:-quick} 2>&1 | grep -v "^WARNING conda" | tail -6)
  if echo "$out" | grep -q "^VIOLATION property=$id"; then echo "CAUGHT $id"; else echo "MISSED $id"; fi
  echo "$out" | sed 's/^/    /'
  for f in $(echo "$out" | grep -o "replay=[^ ]*" | cut -d= -f2 | head -2); do
    python3 - "$f" <<'PY'
import json,sys
try:
    d=json.load(open(sys.argv[1])); print("      key:", d.get("key"), "| layer:", d.get("layer"), "|", str(d.get("what"))[:200])
except Exception as e: print("      (replay unreadable)", e)
PY
  done
done
rm -rf $R $V
