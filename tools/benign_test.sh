#!/bin/bash
# usage: tools/benign_test.sh <patch.diff> — runs ALL quick checks against a patched scratch copy; prints alarms
patch=$(readlink -f "$1")
tag=bt_$$; R=/tmp/${tag}_repo; V=/tmp/${tag}_verif
cp -a /repo $R && cp -a /verif $V || exit 2
( cd $R && git apply "$patch" ) || { echo "PATCH-DOES-NOT-APPLY"; rm -rf $R $V; exit 2; }
ids=$(python3 -c "import json; print(' '.join(c['property_id'] for c in json.load(open('/verif/MANIFEST.json'))['checks']))")
(cd $V && VERIF_REPO=$R tools/build.sh | grep -v "^$" | sed 's/^/  build: /')
for id in $ids; do
  out=$(cd $V && VERIF_REPO=$R timeout 1500 ./check $id quick 2>&1 | grep -v "^WARNING conda")
  if echo "$out" | grep -q "^VIOLATION"; then
    echo "ALARM $id: $(echo "$out" | grep "^VIOLATION" | head -3 | tr '\n' ' ' | cut -c1-300)"
    f=$(echo "$out" | grep -o "replay=[^ ]*" | head -1 | cut -d= -f2)
    python3 -c "
import json,sys
d=json.load(open('$f')); print('    ', (d.get('key') or ''), '|', str(d.get('what') or d.get('no_longer_checks'))[:300])" 2>/dev/null
  fi
done
echo "done $(basename $(dirname $patch))"
rm -rf $R $V
