#!/usr/bin/env python3
"""Mechanical mutation analysis of the checks (supplements the seeded changes written by independent agents).

  mutate.py gen  <out dir> [N] [seed]     write N sampled single-token mutants of /repo's anchored files as
                                          <out>/mNNN.diff + <out>/index.json (file, line, before, after, props)
  mutate.py run  <out dir> [workers]      for every mutant: patched copy of /repo, then the quick checks of the
                                          properties anchored in the mutated file (in persistent scratch copies of
                                          /verif, one per worker) until one reports a VIOLATION; results.json
  mutate.py tests <out dir> [workers]     for every mutant no check caught: does the repository's test suite kill it?

Mutation operators (single line, AST-located so that strings/comments are never touched):
  comparison  < <-> <=, > <-> >=, == <-> !=, is <-> is not
  arithmetic  + <-> -, * <-> /, // -> /, ** 2 -> ** 1
  constants   0 <-> 1, 2 -> 1, 0.5 -> 2.0, True <-> False, axis=0 <-> axis=1
  calls       np.sum <-> np.mean, min <-> max, np.maximum <-> np.minimum, argmax -> argmin
  boolean     `and` <-> `or`, dropped `not`
  statements  an `x op= y` in-place update turned into `pass`
"""
import ast, json, os, random, re, subprocess, sys, shutil, time
from concurrent.futures import ThreadPoolExecutor

REPO = "/repo"
VERIF = "/verif"


def anchored():
    m = {}
    for l in open(f"{VERIF}/properties.jsonl"):
        d = json.loads(l)
        for f in d["anchors"]["files"]:
            if f.endswith(".py"):
                m.setdefault(f, []).append(d["id"])
    return m


CMP = {ast.Lt: ("<", "<="), ast.LtE: ("<=", "<"), ast.Gt: (">", ">="), ast.GtE: (">=", ">"), ast.Eq: ("==", "!="),
       ast.NotEq: ("!=", "=="), ast.Is: ("is", "is not"), ast.IsNot: ("is not", "is")}
BIN = {ast.Add: ("+", "-"), ast.Sub: ("-", "+"), ast.Mult: ("*", "/"), ast.Div: ("/", "*"), ast.FloorDiv: ("//", "/")}
CALLS = {"sum": "mean", "mean": "sum", "maximum": "minimum", "minimum": "maximum", "argmax": "argmin", "min": "max", "max": "min",
         "cumsum": "cumprod", "zeros": "ones", "ones": "zeros"}


def skip_node(node, parents):
    # never mutate inside docstrings, raise/warn messages, verbose prints, type annotations
    for p in parents:
        if isinstance(p, ast.Raise):
            return True
        if isinstance(p, ast.Call) and isinstance(p.func, (ast.Name, ast.Attribute)):
            nm = p.func.id if isinstance(p.func, ast.Name) else p.func.attr
            if nm in ("print", "warn", "format"):
                return True
        if isinstance(p, ast.If) and isinstance(p.test, ast.Attribute) and p.test.attr == "verbose":
            return True
    return False


def candidates(path, src):
    lines = src.split("\n")
    tree = ast.parse(src)
    out = []

    def between(a_end, b_start, line):
        return lines[line][a_end:b_start]

    def visit(node, parents):
        if isinstance(node, (ast.FunctionDef, ast.ClassDef, ast.Module)) and ast.get_docstring(node, clean=False) is not None:
            pass
        if isinstance(node, ast.Expr) and isinstance(node.value, ast.Constant) and isinstance(node.value.value, str):
            return
        if skip_node(node, parents):
            return
        if isinstance(node, ast.Compare) and len(node.ops) == 1 and node.left.end_lineno == node.comparators[0].lineno == node.lineno:
            op = type(node.ops[0])
            if op in CMP:
                a, b = CMP[op]
                ln = node.lineno - 1
                s, e = node.left.end_col_offset, node.comparators[0].col_offset
                seg = lines[ln][s:e]
                if seg.strip() == a:
                    out.append((ln, s, e, seg, seg.replace(a, b), "cmp"))
        if isinstance(node, ast.BinOp) and node.left.end_lineno == node.right.lineno == node.lineno and type(node.op) in BIN:
            a, b = BIN[type(node.op)]
            ln = node.lineno - 1
            s, e = node.left.end_col_offset, node.right.col_offset
            seg = lines[ln][s:e]
            if seg.strip() == a and not isinstance(node.left, ast.Constant) or (seg.strip() == a and not isinstance(getattr(node.left, "value", 0), str)):
                if not (isinstance(node.left, ast.Constant) and isinstance(node.left.value, str)) and not isinstance(node.left, ast.JoinedStr):
                    out.append((ln, s, e, seg, seg.replace(a, b), "arith"))
        if isinstance(node, ast.BoolOp) and node.values[0].end_lineno == node.values[1].lineno:
            ln = node.values[0].end_lineno - 1
            s, e = node.values[0].end_col_offset, node.values[1].col_offset
            seg = lines[ln][s:e]
            a, b = ("and", "or") if isinstance(node.op, ast.And) else ("or", "and")
            if seg.strip() == a:
                out.append((ln, s, e, seg, seg.replace(a, b), "bool"))
        if isinstance(node, ast.UnaryOp) and isinstance(node.op, ast.Not) and node.lineno == node.operand.lineno:
            ln = node.lineno - 1
            s, e = node.col_offset, node.operand.col_offset
            seg = lines[ln][s:e]
            if seg.strip() == "not":
                out.append((ln, s, e, seg, "", "not"))
        if isinstance(node, ast.Constant) and node.lineno == node.end_lineno and not isinstance(node.value, str) and node.value is not None:
            v = node.value
            rep = None
            if v is True:
                rep = "False"
            elif v is False:
                rep = "True"
            elif isinstance(v, int) and v in (0, 1, 2):
                rep = {0: "1", 1: "0", 2: "1"}[v]
            elif isinstance(v, float) and v in (0.5, 2.0, 1.0, 0.0):
                rep = {0.5: "2.0", 2.0: "0.5", 1.0: "0.0", 0.0: "1.0"}[v]
            par = parents[-1] if parents else None
            in_constraints = any(isinstance(p, ast.Assign) and any(getattr(t, "id", getattr(t, "attr", "")) == "_parameter_constraints" for t in p.targets) for p in parents)
            in_default = isinstance(par, ast.arguments)
            if rep is not None and not in_default:
                ln = node.lineno - 1
                out.append((ln, node.col_offset, node.end_col_offset, lines[ln][node.col_offset:node.end_col_offset], rep,
                            "constraint-const" if in_constraints else "const"))
        if isinstance(node, ast.Call):
            f = node.func
            nm = f.attr if isinstance(f, ast.Attribute) else (f.id if isinstance(f, ast.Name) else None)
            if nm in CALLS and f.lineno == f.end_lineno:
                ln = f.end_lineno - 1
                e = f.end_col_offset
                s = e - len(nm)
                if lines[ln][s:e] == nm:
                    out.append((ln, s, e, nm, CALLS[nm], "call"))
        if isinstance(node, ast.AugAssign) and node.lineno == node.end_lineno:
            ln = node.lineno - 1
            out.append((ln, node.col_offset, node.end_col_offset, lines[ln][node.col_offset:node.end_col_offset], "pass", "drop-update"))
        for ch in ast.iter_child_nodes(node):
            visit(ch, parents + [node])

    visit(tree, [])
    # drop duplicates
    seen, res = set(), []
    for c in out:
        if (c[0], c[1], c[2], c[4]) not in seen:
            seen.add((c[0], c[1], c[2], c[4])); res.append(c)
    return res


def gen(outdir, n, seed):
    os.makedirs(outdir, exist_ok=True)
    rnd = random.Random(seed)
    amap = anchored()
    allc = []
    for f, props in sorted(amap.items()):
        src = open(f"{REPO}/{f}").read()
        for c in candidates(f, src):
            allc.append((f, props, c))
    rnd.shuffle(allc)
    # stratify: at most ceil(n / #files * 2) per file
    per = {}
    chosen = []
    cap = max(3, 2 * n // len(amap))
    for f, props, c in allc:
        if per.get(f, 0) >= cap:
            continue
        per[f] = per.get(f, 0) + 1
        chosen.append((f, props, c))
        if len(chosen) >= n:
            break
    index = []
    for k, (f, props, (ln, s, e, before, after, kind)) in enumerate(chosen):
        src = open(f"{REPO}/{f}").read().split("\n")
        new = list(src)
        new[ln] = src[ln][:s] + after + src[ln][e:]
        tmp = f"/tmp/mut_{os.getpid()}"
        shutil.rmtree(tmp, ignore_errors=True); os.makedirs(tmp + "/a/" + os.path.dirname(f)); os.makedirs(tmp + "/b/" + os.path.dirname(f))
        open(f"{tmp}/a/{f}", "w").write("\n".join(src)); open(f"{tmp}/b/{f}", "w").write("\n".join(new))
        d = subprocess.run(["diff", "-u", f"a/{f}", f"b/{f}"], cwd=tmp, capture_output=True, text=True).stdout
        d = re.sub(r"^--- a/(\S+).*$", r"--- a/\1", d, flags=re.M); d = re.sub(r"^\+\+\+ b/(\S+).*$", r"+++ b/\1", d, flags=re.M)
        open(f"{outdir}/m{k:03d}.diff", "w").write(d)
        shutil.rmtree(tmp, ignore_errors=True)
        index.append({"id": f"m{k:03d}", "file": f, "line": ln + 1, "kind": kind, "before": src[ln].strip(), "after": new[ln].strip(), "props": props})
    json.dump(index, open(f"{outdir}/index.json", "w"), indent=1)
    print(f"{len(index)} mutants from {len(allc)} candidates in {len(amap)} files")


def sh(cmd, cwd=None, timeout=2400, env=None):
    p = subprocess.run(cmd, shell=True, cwd=cwd, capture_output=True, text=True, timeout=timeout, env=env)
    return p.returncode, p.stdout + p.stderr


ORDER = ["C10", "C19", "C05", "C12", "C20", "C01", "C02", "C15", "C18", "C11", "C03", "C04", "C09", "C16", "C07", "C13", "C17", "C08", "C14", "C06"]


def run_one(m, outdir, worker):
    V = f"/tmp/mutw_{worker}_verif"
    R = f"/tmp/mutw_{worker}_repo"
    shutil.rmtree(R, ignore_errors=True)
    sh(f"cp -a {REPO} {R}")
    rc, out = sh(f"git apply {outdir}/{m['id']}.diff", cwd=R)
    if rc != 0:
        return dict(m, result="PATCH-FAIL", detail=out[-200:])
    rc, out = sh("/venv/bin/python -W ignore -c 'import gemclus, gemclus.tree, gemclus.sparse, gemclus.data, gemclus.mlp, gemclus.linear, gemclus.nonparametric'", cwd=R)
    if rc != 0:
        return dict(m, result="IMPORT-FAIL", detail=out[-200:])
    t0 = time.time()
    tried = []
    props = list(m["props"])
    if m.get("kind") == "constraint-const" and "C16" not in props:
        props.append("C16")   # every `_parameter_constraints` table is in the scope of C16, whatever file holds it
    for pid in sorted(props, key=ORDER.index):
        env = dict(os.environ, VERIF_REPO=R)
        try:
            rc, out = sh(f"timeout 1500 ./check {pid} quick", cwd=V, env=env, timeout=1600)
        except subprocess.TimeoutExpired:
            out = "TIMEOUT"
        tried.append(pid)
        vio = [l for l in out.split("\n") if l.startswith("VIOLATION")]
        if vio:
            keys = []
            for l in vio[:4]:
                mm = re.search(r"replay=(\S+)", l)
                try:
                    d = json.load(open(mm.group(1)))
                    keys.append(str(d.get("key") or [x["theorem_or_file"] for x in d.get("no_longer_checks", [])][:1]))
                except Exception:  # noqa
                    keys.append("?")
            shutil.rmtree(R, ignore_errors=True)
            return dict(m, result="CAUGHT", by=pid, keys=keys, nofail=all("no-failing-input-found" in l for l in vio), tried=tried, wall=round(time.time() - t0))
    shutil.rmtree(R, ignore_errors=True)
    return dict(m, result="NOT-CAUGHT", tried=tried, wall=round(time.time() - t0))


def run(outdir, workers):
    index = json.load(open(f"{outdir}/index.json"))
    done = {}
    rp = f"{outdir}/results.json"
    if os.path.exists(rp):
        done = {r["id"]: r for r in json.load(open(rp))}
    for w in range(workers):
        V = f"/tmp/mutw_{w}_verif"
        shutil.rmtree(V, ignore_errors=True)
        sh(f"cp -a {VERIF} {V}; rm -rf {V}/build/.lock")
    todo = [m for m in index if m["id"] not in done]
    import queue
    q = queue.Queue()
    for m in todo:
        q.put(m)

    def work(w):
        while True:
            try:
                m = q.get_nowait()
            except queue.Empty:
                return
            r = run_one(m, outdir, w)
            done[r["id"]] = r
            json.dump(list(done.values()), open(rp, "w"), indent=1)
            print(r["id"], r["result"], r.get("by", ""), r.get("keys", "")[:2] if r.get("keys") else "", m["file"], m["line"], "|", m["before"][:50], "=>", m["after"][:50], flush=True)
    with ThreadPoolExecutor(workers) as ex:
        list(ex.map(work, range(workers)))
    for w in range(workers):
        shutil.rmtree(f"/tmp/mutw_{w}_verif", ignore_errors=True); shutil.rmtree(f"/tmp/mutw_{w}_repo", ignore_errors=True)
    res = list(done.values())
    c = sum(r["result"] == "CAUGHT" for r in res); n = sum(r["result"] in ("CAUGHT", "NOT-CAUGHT") for r in res)
    print(f"caught {c} of {n} valid mutants")


def tests(outdir, workers):
    res = json.load(open(f"{outdir}/results.json"))
    base = set(json.load(open("/root/.vp/BASELINE.json"))["stable_pass"])
    todo = [r for r in res if r["result"] == "NOT-CAUGHT" and "tests" not in r]

    def one(r):
        R = f"/tmp/mutt_{r['id']}_repo"
        shutil.rmtree(R, ignore_errors=True)
        sh(f"cp -a {REPO} {R}")
        sh(f"git apply {outdir}/{r['id']}.diff", cwd=R)
        xml = f"/tmp/mutt_{r['id']}.xml"
        sh(f"OMP_NUM_THREADS=1 OPENBLAS_NUM_THREADS=1 /venv/bin/python -m pytest -q -p no:cacheprovider --timeout=900 --junitxml={xml} gemclus/tests", cwd=R, timeout=3000)
        import xml.etree.ElementTree as ET
        passed = set()
        try:
            for tc in ET.parse(xml).getroot().iter("testcase"):
                if not any(c.tag in ("failure", "error", "skipped") for c in tc):
                    passed.add(tc.get("classname") + "::" + tc.get("name"))
        except Exception:  # noqa
            pass
        missing = sorted(base - passed)
        shutil.rmtree(R, ignore_errors=True)
        try:
            os.remove(xml)
        except OSError:
            pass
        r["tests"] = "KILLED-BY-TESTS" if missing else "SURVIVES-TESTS"
        r["tests_missing"] = missing[:3]
        print(r["id"], r["tests"], r["file"], r["line"], "|", r["before"][:60], "=>", r["after"][:60], flush=True)
        return r
    with ThreadPoolExecutor(workers) as ex:
        list(ex.map(one, todo))
    json.dump(res, open(f"{outdir}/results.json", "w"), indent=1)


if __name__ == "__main__":
    cmd = sys.argv[1]
    if cmd == "gen":
        gen(sys.argv[2], int(sys.argv[3]) if len(sys.argv) > 3 else 120, int(sys.argv[4]) if len(sys.argv) > 4 else 0)
    elif cmd == "run":
        run(sys.argv[2], int(sys.argv[3]) if len(sys.argv) > 3 else 4)
    elif cmd == "tests":
        tests(sys.argv[2], int(sys.argv[3]) if len(sys.argv) > 3 else 6)
