#!/usr/bin/env python3
"""usage: file_seed.py <src dir> <seed id> <caught-by text> — copies a verified seeded change into /verif/seeded/<id>/."""
import json, os, shutil, subprocess, sys
src, sid, caught = sys.argv[1], sys.argv[2], sys.argv[3]
dst = f"/verif/seeded/{sid}"
os.makedirs(dst, exist_ok=True)
for f in ("patch.diff", "demo.py"):
    shutil.copy(os.path.join(src, f), dst)
m = json.load(open(os.path.join(src, "meta.json")))
head = subprocess.check_output(["git", "-C", "/repo", "rev-parse", "--short", "HEAD"], text=True).strip()
m.update({"id": sid, "verified_against_repo_head": head,
          "what_i_ran": ["tools/verify_seed.sh <dir> <Cxx>: demo.py exits 0 on an unchanged copy of /repo and 1 on the patched copy; "
                         "then `VERIF_REPO=<patched copy> <scratch copy of /verif>/check <Cxx> quick` (tools/mutation_test.sh)",
                         "the sub-agent ran the full pytest suite before/after (see tests_run): the same tests pass"],
          "detected_by": caught})
json.dump(m, open(os.path.join(dst, "meta.json"), "w"), indent=1)
print("filed", dst)
