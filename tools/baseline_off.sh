#!/bin/bash
# Runs the repository's pinned test suite with the verification guard OFF and compares the result with
# BASELINE.json's stable_pass set (exit 0 iff every stable-pass test still passes).
unset GEMCLUS_VERIF
OUT=${1:-/root/work/baseline_off.xml}
mkdir -p "$(dirname "$OUT")"
cd /repo && /venv/bin/python -m pytest -ra -q -p no:cacheprovider --timeout=900 --continue-on-collection-errors --junitxml="$OUT" > "${OUT%.xml}.log" 2>&1
python3 - "$OUT" <<'PY'
import json,sys,xml.etree.ElementTree as ET
base=set(json.load(open('/root/.vp/BASELINE.json'))['stable_pass'])
root=ET.parse(sys.argv[1]).getroot()
passed=set()
for tc in root.iter('testcase'):
    if not any(c.tag in('failure','error','skipped') for c in tc):
        passed.add(tc.get('classname')+'::'+tc.get('name'))
missing=sorted(base-passed)
print(f"baseline stable_pass={len(base)} passed_now={len(passed)} missing={len(missing)}")
for m in missing[:20]: print("  MISSING",m)
sys.exit(1 if missing else 0)
PY
