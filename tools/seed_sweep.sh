#!/bin/bash
# usage: tools/seed_sweep.sh "1 2 3" [tier]   — runs every registered check with each seed; prints only alarms and a summary
cd "$(dirname "$0")/.."
seeds=${1:-"1 2 3"}; tier=${2:-quick}
ids=$(python3 -c "import json; print(' '.join(c['property_id'] for c in json.load(open('MANIFEST.json'))['checks']))")
for seed in $seeds; do
  for id in $ids; do
    out=$(VERIF_SEED=$seed timeout 3600 ./check $id $tier 2>&1 | grep -v "^WARNING conda")
    if echo "$out" | grep -q "^VIOLATION"; then
      echo "ALARM seed=$seed $id"; echo "$out" | grep "^VIOLATION" | sed 's/^/    /'
      mkdir -p /root/work/alarms; for f in $(echo "$out" | grep -o "replay=[^ ]*" | cut -d= -f2); do cp $f /root/work/alarms/seed${seed}_${id}_$(basename $f) 2>/dev/null; done
    fi
    echo "$out" | tail -1 | sed "s/^/seed=$seed /" | cut -c1-170
  done
done
