#!/bin/bash
# Runs every check registered in MANIFEST.json (quick tier by default) and prints a summary table.
cd "$(dirname "$0")/.."
tier=${1:-quick}
ids=$(python3 -c "import json; print(' '.join(c['property_id'] for c in json.load(open('MANIFEST.json'))['checks']))")
for id in $ids; do
  s=$(date +%s)
  out=$(timeout 3600 ./check $id $tier 2>&1 | grep -v "^WARNING conda"); rc=$?
  e=$(( $(date +%s) - s ))
  nv=$(echo "$out" | grep -c "^VIOLATION"); nk=$(echo "$out" | grep -c "^KNOWN-FINDING")
  echo "$id rc=$rc violations=$nv known=$nk wall=${e}s :: $(echo "$out" | tail -1 | cut -c1-160)"
  echo "$out" | grep "^VIOLATION\|^KNOWN-FINDING" | sed 's/^/      /'
done
