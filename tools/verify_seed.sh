#!/bin/bash
# usage: tools/verify_seed.sh <dir with patch.diff demo.py> <Cxx> [more ids]
# 1. demo must exit 0 on the unchanged /repo copy and non-zero on the patched copy
# 2. runs the given checks against the patched copy (scratch framework copy)
d=$(readlink -f $1); shift
R=/tmp/vs_$$_repo; cp -r /repo $R
( cd $R && timeout 600 /venv/bin/python -W ignore $d/demo.py > /tmp/vs_$$_clean.out 2>&1 ); c0=$?
( cd $R && git apply $d/patch.diff ) || { echo "PATCH-DOES-NOT-APPLY"; rm -rf $R; exit 2; }
( cd $R && timeout 600 /venv/bin/python -W ignore $d/demo.py > /tmp/vs_$$_mut.out 2>&1 ); c1=$?
echo "demo: clean exit=$c0 mutated exit=$c1 :: $(grep -v WARNING /tmp/vs_$$_mut.out | tail -1 | cut -c1-160)"
rm -rf $R /tmp/vs_$$_*.out
/verif/tools/mutation_test.sh $d/patch.diff "$@"
