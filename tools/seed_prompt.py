#!/usr/bin/env python3
"""Prints the prompt given to an independent sub-agent asked to seed a property-breaking change.
Only the property text and the scratch worktree are given (nothing from /verif)."""
import json, sys
pid = sys.argv[1]
round2 = len(sys.argv) > 2 and sys.argv[2] in ("2", "3", "4")
round3 = len(sys.argv) > 2 and sys.argv[2] in ("3", "4")
p = [json.loads(l) for l in open('/verif/properties.jsonl') if json.loads(l)['id'] == pid][0]
wt = f"/tmp/seed{sys.argv[2]}_{pid}" if (len(sys.argv) > 2 and sys.argv[2] in ("3", "4")) else f"/tmp/seed_{pid}"
out = f"/tmp/seed{sys.argv[2]}_out" if (len(sys.argv) > 2 and sys.argv[2] in ("3", "4")) else "/tmp/seed_out"
tried = json.load(open("/root/work/tried.json")).get(pid, []) if round2 and __import__("os").path.exists("/root/work/tried.json") else []
print(f"""You are testing how robust a Python library's guarantees are. The library is GemClus (scikit-learn-compatible discriminative clustering); a git worktree of it is at {wt} (work ONLY there; never touch /repo or /verif or any other directory except {wt} and {out}/{pid}). Run Python as `cd {wt} && /venv/bin/python ...` (the current directory comes first on sys.path, so `import gemclus` imports the worktree's copy). There is no network and nothing can be installed; there is no Cython, so changes to `gemclus/tree/_utils.pyx` have NO effect (the compiled .so in the worktree is what runs): change only .py files.

Here is a semantic property the library is supposed to satisfy:

PROPERTY {pid}: {p['title']}
{p['statement']}
It must hold: {p['quantifier']['text']}.

Your task: produce TWO DIFFERENT realistic changes (bugs a maintainer could plausibly introduce during a refactoring or an optimisation) to the library's source, each of which BREAKS this property while (a) the package still imports and (b) the existing test suite still passes: run `cd {wt} && /venv/bin/python -m pytest -q -p no:cacheprovider gemclus/tests 2>&1 | tail -5` before your change to learn which tests pass on the unchanged tree (some tests fail already on the unchanged tree: those do not count; the full run takes ~3 minutes), and again with each change: no test that passed before may fail. Prefer changes that need something SPECIFIC to manifest — an unusual input (particular shapes, ties, duplicated values, non-contiguous indices, a particular hyper-parameter combination), a multi-step sequence of calls, or two cooperating sites that each look fine alone — not ones that ordinary use would expose at once. Each change should be small (a few lines).

For each change i in {{1,2}} write into {out}/{pid}/change{{i}}/ : `patch.diff` (output of `git -C {wt} diff` with ONLY that change applied; make sure `git -C {wt} apply --check` would accept it on a clean tree), `demo.py` (a small self-contained program, run as `cd <tree> && /venv/bin/python {out}/{pid}/change{{i}}/demo.py`, that exits 0 on the unchanged tree and exits 1 printing what went wrong on the changed tree — it must import gemclus from the current directory: start it with `import sys, os; sys.path.insert(0, os.getcwd())` because an editable install of another copy exists), and `meta.json` with keys: property ("{pid}"), summary (one sentence: what was changed), needs (what is needed for the violation to manifest), files (list of changed files), tests_run (the pytest command and its last line before/after). After writing the files for change 1, restore the worktree (`git -C {wt} checkout -- .`) before making change 2, and leave the worktree clean at the end. Never use `git stash` (the stash is shared with other worktrees of the same repository that other people are using right now). Verify each demo yourself on both trees. Final message: a short summary of the two changes.""")
if tried:
    print("\nThese ideas were already used by someone else for this property — do something DIFFERENT (other code site, other mechanism):")
    for t in tried:
        print(" - " + t)
    if round3:
        print("Earlier rounds concentrated on cached state across calls and on large refactorings. Prefer, this time, QUIET semantic slips at rarely exercised corners: an off-by-one or a strict/non-strict comparison at a boundary value; a configuration corner (solver='sgd' vs 'adam', ovo=True with exactly two clusters, batch_size equal to or larger than the number of samples, n_clusters equal to the number of samples, a kernel or metric given with parameters or as a callable, feature groups of size one, max_depth / max_leaf limits met simultaneously, verbose=True paths); an input-representation corner (float32, integer or boolean arrays, Fortran-ordered or non-contiguous views, read-only arrays, lists of lists, a single feature, a single sample per cluster, duplicated rows, constant columns, negative or huge values); an axis / transpose / broadcasting slip that is invisible for square or symmetric inputs; a wrong default resolved from None; numerically close but different formulas (mean vs sum, N vs N-1, missing factor in one branch only); an in-place operation on an argument or on a fitted attribute. The change must still look like something a maintainer would write. To keep the machine responsive run pytest with `OMP_NUM_THREADS=1 OPENBLAS_NUM_THREADS=1 MKL_NUM_THREADS=1` in front, run only the test files relevant to your change while iterating, and the full suite once per final change.")
    else:
      print("Prefer, this time, changes that involve TWO cooperating sites that each look fine alone, a multi-step sequence of public calls on one object, or an interaction between two hyper-parameters / features of the library. To keep the machine responsive run pytest with `OMP_NUM_THREADS=1 OPENBLAS_NUM_THREADS=1 MKL_NUM_THREADS=1` in front, run only the test files relevant to your change while iterating, and the full suite once per final change.")
