#!/usr/bin/env python3
"""Writes MANIFEST.json from the per-property table below (single source of truth)."""
import json
import glob
CHECKS = {}
for f in sorted(glob.glob('/verif/meta/C*.json')):
    d = json.load(open(f))
    CHECKS[d["property_id"]] = dict(level=d["level"], technique=d["technique"], text=d["text"], note=d["note"], ref=d.get("design_ref", ""))
NA = {}
props = [json.loads(l) for l in open('/verif/properties.jsonl')]
checks = []
for p in props:
    pid = p["id"]
    if pid in CHECKS:
        c = CHECKS[pid]
        checks.append({"property_id": pid, "quick_cmd": f"./check {pid} quick", "thorough_cmd": f"./check {pid} thorough",
                       "evidence_file": f"/verif/evidence/{pid}.json", "replay_cmd_template": f"./check {pid} --replay {{path}}",
                       "engine": "coq-model+correspondence",
                       "level_claimed": {"category": c["level"], "text": c["text"], "design_ref": c["ref"]},
                       "level_note": c["note"], "technique": c["technique"]})
na = [{"property_id": p["id"], "reason": NA.get(p["id"], "check not implemented yet in this revision (planned, see DESIGN.md §5/§7)")}
      for p in props if p["id"] not in CHECKS]
m = {"version": 1, "setup_cmd": "tools/build.sh",
     "hooks": {"guard": "GEMCLUS_VERIF", "enable": "no source hooks are needed: the implementation is imported from /repo in place and observed through its extension points; GEMCLUS_VERIF=1 is exported by ./check but no code in /repo reads it",
               "baseline_off_cmd": "/verif/tools/baseline_off.sh", "source_commits": [], "add_only": True},
     "engines": [{"name": "coq-model+correspondence", "path": "/verif/coq, /verif/ocaml, /verif/harness",
                  "serves_properties": sorted(CHECKS), "kind_free_text": "Coq 8.16 theorems about Gallina models; models extracted to OCaml and run against the implementation; fail-closed translators regenerate tabular models from /repo"}],
     "checks": checks, "not_applicable": na,
     "notes": "See DESIGN.md. KNOWN_FINDINGS.txt lists genuine defects recorded rather than repaired and fixes committed to /repo."}
json.dump(m, open('/verif/MANIFEST.json', 'w'), indent=1)
print("checks:", [c["property_id"] for c in checks], "na:", len(na))
