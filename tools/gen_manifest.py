#!/usr/bin/env python3
"""Writes MANIFEST.json from the per-property table below (single source of truth)."""
import json
CHECKS = {
 "C10": dict(level="proof", technique="Coq proof (induction over the slicing loop) + extracted-model correspondence",
   text="Theorems C10_* (Props/C10.v, axiom-free): for every n, batch_size>=1 and permutation the batches concatenate to the permutation, are disjoint, cover every sample exactly once, hold <= batch_size rows, number ceil(n/bs); element a of batch j is element j*bs+a of the permutation for data rows and affinity rows/columns alike; fit performs max_iter*ceil(n/bs) steps; the mlcl decoration records the true indices; categorical models see the full data. The extracted model is run against _batchify, decorated _batchify, recorded real fits and paths.",
   note="Trusted: Coq kernel, extraction (ExtrOcamlBasic), OCaml driver, python harness; numpy's permutation is an oracle. Modelled, not verified: _batchify / decorate_batch / compute_val_score slicing; the tie is the correspondence on tagged data.",
   ref="§5 C10"),
}
NA = {}
props = [json.loads(l) for l in open('/verif/properties.jsonl')]
checks = []
for p in props:
    pid = p["id"]
    if pid in CHECKS:
        c = CHECKS[pid]
        checks.append({"property_id": pid, "quick_cmd": f"./check {pid} quick", "thorough_cmd": f"./check {pid} thorough",
                       "evidence_file": f"/verif/evidence/{pid}.json", "replay_cmd_template": f"./check {pid} --replay {{path}}",
                       "engine": "coq-model+correspondence",
                       "level_claimed": {"category": c["level"], "text": c["text"], "design_ref": c["ref"]},
                       "level_note": c["note"], "technique": c["technique"]})
na = [{"property_id": p["id"], "reason": NA.get(p["id"], "check not implemented yet in this revision (planned, see DESIGN.md §5/§7)")}
      for p in props if p["id"] not in CHECKS]
m = {"version": 1, "setup_cmd": "tools/build.sh",
     "hooks": {"guard": "GEMCLUS_VERIF", "enable": "no source hooks are needed: the implementation is imported from /repo in place and observed through its extension points; GEMCLUS_VERIF=1 is exported by ./check but no code in /repo reads it",
               "baseline_off_cmd": "/verif/tools/baseline_off.sh", "source_commits": [], "add_only": True},
     "engines": [{"name": "coq-model+correspondence", "path": "/verif/coq, /verif/ocaml, /verif/harness",
                  "serves_properties": sorted(CHECKS), "kind_free_text": "Coq 8.16 theorems about Gallina models; models extracted to OCaml and run against the implementation; fail-closed translators regenerate tabular models from /repo"}],
     "checks": checks, "not_applicable": na,
     "notes": "See DESIGN.md. KNOWN_FINDINGS.txt lists genuine defects recorded rather than repaired and fixes committed to /repo."}
json.dump(m, open('/verif/MANIFEST.json', 'w'), indent=1)
print("checks:", [c["property_id"] for c in checks], "na:", len(na))
